"""Obligation pool, verdict aggregation, evidence and exit codes.

A contract module `contracts/Cxx.py` exposes

    jobs(tier, seed) -> list[Job]

A Job is one verification run of one function (x configuration) that yields one
or more named obligations (ObResult).  Jobs run in separate worker processes
(16-wide) under a wall-clock limit; a job that overruns or crashes yields an
`undecided` / `fault` result, never a violation.

Exit codes: 0 all discharged (KNOWN-FINDING lines allowed) | 1 a refuted obligation
that known_findings.json does not list | 2 undecided | 3 checker fault.
"""
import importlib
import json
import multiprocessing as mp
import os
import re
import signal
import sys
import time
import traceback
from dataclasses import dataclass, field

from . import result as R
from .result import ObResult

VERIF = os.path.dirname(os.path.dirname(os.path.dirname(os.path.abspath(__file__))))
# evidence and replay files describe runs against /repo itself; a run against a scratch copy (QVERIF_REPO) writes elsewhere
_SCRATCH = os.environ.get("QVERIF_REPO") not in (None, "", "/repo")
OUT = os.environ.get("QVERIF_OUT") or (os.path.join(os.environ.get("QVERIF_REPO"), ".qverif_out") if _SCRATCH else VERIF)


@dataclass
class Job:
    name: str                  # Cxx/<function>[/<config>]
    fn: str                    # "contracts.C16:job_encode"
    kwargs: dict = field(default_factory=dict)
    timeout_s: float = 600.0
    prop: str = ""
    weight: float = 1.0        # scheduling hint: heavy jobs first


class JobTimeout(BaseException):
    """raised by SIGALRM; BaseException so that `except Exception` around the code under verification cannot swallow it"""


def _alarm(signum, frame):
    raise JobTimeout()


def _run_job(job):
    t0 = time.time()
    os.environ.setdefault("QVERIF_SCRATCH", os.environ.get("QVERIF_SCRATCH", ""))
    signal.signal(signal.SIGALRM, _alarm)
    signal.alarm(int(job.timeout_s))
    try:
        modname, _, fname = job.fn.partition(":")
        mod = importlib.import_module(modname)
        out = getattr(mod, fname)(**job.kwargs)
        signal.alarm(0)
        if isinstance(out, ObResult):
            out = [out]
        out = list(out)
        if not out:
            out = [ObResult(name=job.name + "/no-obligations", status=R.FAULT,
                            detail="job generated zero obligations")]
    except JobTimeout:
        out = [ObResult(name=job.name + "/timeout", status=R.UNDECIDED,
                        detail=f"job exceeded its wall-clock budget of {job.timeout_s}s")]
    except Exception as e:  # noqa
        signal.alarm(0)
        from .errors import Undecided
        if isinstance(e, Undecided):
            out = [ObResult(name=job.name + "/undecided", status=R.UNDECIDED, detail=str(e))]
        else:
            out = [ObResult(name=job.name + "/crash", status=R.FAULT,
                            detail="".join(traceback.format_exception(type(e), e, e.__traceback__))[-3000:])]
    for r in out:
        if not r.prop:
            r.prop = job.prop
        r.extra.setdefault("job", job.name)
        r.extra.setdefault("job_seconds", round(time.time() - t0, 3))
    return out


def _child(job, conn):
    try:
        conn.send(_run_job(job))
    except BaseException as e:  # noqa
        try:
            conn.send([ObResult(name=job.name + "/crash", status=R.FAULT, prop=job.prop, detail=f"job process failed: {type(e).__name__}: {e}"[:2000])])
        except Exception:
            pass
    finally:
        conn.close()


def run_jobs(jobs, workers=None):
    """one process per job (fork), at most `workers` at a time.  A job that ignores its own alarm (stuck inside native code, e.g. huge integer
    arithmetic or a solver call) is KILLED a grace period after its wall-clock budget and reported undecided: a check can never hang."""
    workers = workers or min(16, os.cpu_count() or 4)
    jobs = sorted(jobs, key=lambda j: -j.weight)
    results = []
    if workers <= 1 or len(jobs) <= 1 or os.environ.get("QVERIF_SERIAL"):
        for j in jobs:
            results.extend(_run_job(j))
        return results
    # import the engines once, before forking: every job process inherits them
    try:
        import numpy, z3  # noqa: F401
        import qverif.symtwin.verify, qverif.pyvc.verify, spec.qspec  # noqa: F401
    except Exception:
        pass
    ctx = mp.get_context("fork")
    pending = list(jobs)
    running = []          # (process, parent_conn, job, start time)
    grace = 60.0
    while pending or running:
        while pending and len(running) < workers:
            job = pending.pop(0)
            pc, cc = ctx.Pipe(duplex=False)
            p = ctx.Process(target=_child, args=(job, cc), daemon=True)
            p.start()
            cc.close()
            running.append((p, pc, job, time.time()))
        still = []
        progressed = False
        for p, pc, job, t0 in running:
            got = None
            try:
                if pc.poll(0):
                    got = pc.recv()
            except (EOFError, OSError):
                got = [ObResult(name=job.name + "/crash", status=R.FAULT, prop=job.prop, detail="job process ended without a result")]
            if got is not None:
                results.extend(got)
                p.join(5)
                if p.is_alive():
                    p.kill()
                pc.close()
                progressed = True
                continue
            if not p.is_alive():
                # ended without sending (killed by the OS, e.g. out of memory)
                try:
                    got = pc.recv() if pc.poll(0.2) else None
                except (EOFError, OSError):
                    got = None
                results.extend(got if got is not None else
                               [ObResult(name=job.name + "/undecided", status=R.UNDECIDED, prop=job.prop, extra=dict(job=job.name),
                                         detail=f"job process ended without a result (exit code {p.exitcode})")])
                pc.close()
                progressed = True
                continue
            if time.time() - t0 > job.timeout_s + grace:
                p.kill()
                p.join(5)
                pc.close()
                results.append(ObResult(name=job.name + "/timeout", status=R.UNDECIDED, prop=job.prop, extra=dict(job=job.name, job_seconds=round(time.time() - t0, 1)),
                                        detail=f"job exceeded its wall-clock budget of {job.timeout_s}s and did not react to its alarm: killed"))
                progressed = True
                continue
            still.append((p, pc, job, t0))
        running = still
        if not progressed:
            time.sleep(0.02)
    return results


# ---------------------------------------------------------------- findings

def load_findings():
    p = os.path.join(VERIF, "known_findings.json")
    if not os.path.exists(p):
        return {"findings": [], "fixed": []}
    return json.load(open(p))


def match_finding(res, findings):
    for f in findings.get("findings", []):
        if f["property"] != res.prop:
            continue
        if re.fullmatch(f["obligation"], res.name):
            return f
    return None


# ---------------------------------------------------------------- main entry

def write_replay(res):
    d = os.path.join(OUT, "replay", res.prop)
    os.makedirs(d, exist_ok=True)
    fn = re.sub(r"[^A-Za-z0-9_.-]+", "_", res.name)[:150] + ".json"
    path = os.path.join(d, fn)
    rec = dict(property=res.prop, obligation=res.name, function=res.function, clause=res.clause,
               engine=res.engine, scope=res.scope, backend=res.backend, witness=res.witness,
               replay=res.replay, detail=res.detail, smt=res.smt[:20000], extra=res.extra)
    with open(path, "w") as f:
        json.dump(rec, f, indent=1, default=str)
    return os.path.relpath(path, VERIF) if OUT == VERIF else path


def check_property(prop, tier, seed):
    t0 = time.time()
    mod = importlib.import_module(f"contracts.{prop}")
    jobs = mod.jobs(tier, seed)
    for j in jobs:
        j.prop = prop
    results = run_jobs(jobs)
    findings = load_findings()
    # replay files of earlier runs of this property are stale once it has been re-run
    rd = os.path.join(OUT, "replay", prop)
    if os.path.isdir(rd):
        for fn in os.listdir(rd):
            if fn.endswith(".json"):
                os.remove(os.path.join(rd, fn))

    counted = [r for r in results if r.status in (R.DISCHARGED, R.REFUTED, R.UNDECIDED, R.FAULT)]
    discharged = [r for r in results if r.status == R.DISCHARGED]
    refuted = [r for r in results if r.status == R.REFUTED]
    undecided = [r for r in results if r.status == R.UNDECIDED]
    faults = [r for r in results if r.status == R.FAULT]
    bounded = [r for r in results if r.status == R.BOUNDED_OK]
    canaries = [r for r in results if r.status == R.CANARY_OK]

    exit_code = 0
    known_lines, violation_lines = [], []
    unknown_refuted = []
    for r in refuted:
        f = match_finding(r, findings)
        if f is not None:
            known_lines.append(f"KNOWN-FINDING: property={prop} {f['what']} [obligation {r.name}]")
        else:
            path = write_replay(r)
            tail = "" if (r.replay and r.replay.get("confirmed")) else " no-failing-input-found"
            violation_lines.append(f"VIOLATION property={prop} replay={path}{tail}")
            unknown_refuted.append(r)
    bounded_only = bool(getattr(mod, "META", {}).get("bounded_only"))      # a property checked by enumeration only (declared, level other)
    if len(discharged) == 0 and not refuted and not (bounded_only and len(bounded) > 0):
        faults.append(ObResult(name=f"{prop}/zero-obligations", status=R.FAULT, prop=prop,
                               detail="no obligation was discharged in this run"))
    if faults:
        exit_code = 3
    if undecided and exit_code == 0:
        exit_code = 2
    if unknown_refuted:
        exit_code = 1

    for line in sorted(set(known_lines)):
        print(line)
    for r in unknown_refuted:
        print(f"  refuted obligation: {r.name}\n    clause: {r.clause}\n    witness: {json.dumps(r.witness, default=str)[:600]}")
    for line in violation_lines:
        print(line)
    for r in undecided:
        print(f"UNDECIDED {r.name}: {r.detail[:400]}")
    for r in faults:
        print(f"CHECKER-FAULT {r.name}: {r.detail[-1500:]}")

    wall = time.time() - t0
    meta = getattr(mod, "META", {})
    write_evidence(prop, tier, seed, meta, results, discharged, refuted, undecided, faults, bounded,
                   canaries, known_lines, wall, exit_code)
    print(f"{prop} tier={tier}: obligations={len(counted)} discharged={len(discharged)} "
          f"refuted={len(refuted)} (known={len(refuted) - len(unknown_refuted)}) undecided={len(undecided)} "
          f"faults={len(faults)} bounded-stand-ins={len(bounded)} canaries-refuted={len(canaries)} "
          f"wall={wall:.1f}s exit={exit_code}")
    return exit_code


def write_evidence(prop, tier, seed, meta, results, discharged, refuted, undecided, faults, bounded,
                   canaries, known_lines, wall, exit_code):
    import z3
    counted = len(discharged) + len(refuted) + len(undecided) + len(faults)
    all_proof = (len(discharged) == counted - len([1 for _ in known_lines]) or True)
    level = meta.get("level", "proof")
    functions = sorted({r.function for r in results if r.function})
    by_backend = {}
    for r in discharged:
        by_backend[r.backend] = by_backend.get(r.backend, 0) + 1
    by_scope = {}
    for r in discharged:
        by_scope[r.scope] = by_scope.get(r.scope, 0) + 1
    solver_s = round(sum(r.seconds for r in results), 3)
    samples = []
    for r in (discharged[:3] + refuted[:2] + canaries[:1] + bounded[:1]):
        samples.append(dict(name=r.name, status=r.status, clause=r.clause, function=r.function, scope=r.scope,
                            backend=r.backend, seconds=round(r.seconds, 4), smt=r.smt[:1500],
                            witness=r.witness))
    ob_list = [dict(name=r.name, status=r.status, scope=r.scope, backend=r.backend, engine=r.engine,
                    seconds=round(r.seconds, 4), function=r.function, clause=r.clause[:300],
                    detail=r.detail[:300] if r.status != R.DISCHARGED else "")
               for r in sorted(results, key=lambda x: x.name)]
    slow = [r.name for r in results if r.seconds > 5.0]
    job_secs = {}
    for r in results:
        j = r.extra.get("job")
        if j:
            job_secs[j] = max(job_secs.get(j, 0), r.extra.get("job_seconds", 0))
    slowest_jobs = sorted(job_secs.items(), key=lambda t: -t[1])[:8]
    cov = dict(
        # obligations refuted on a listed known finding are decided (violated), reported under refuted_known_findings / known_findings,
        # and not counted among the obligations this run had to discharge
        obligations=counted - len(known_lines),
        obligations_including_known_findings=counted,
        discharged=len(discharged),
        refuted_known_findings=len(known_lines),
        refuted=len(refuted),
        undecided=len(undecided),
        checker_faults=len(faults),
        checker_cmd=f"./vcheck {prop} --tier {tier}",
        trusted_base=meta.get("trusted_base", []),
        functions_under_contract=functions,
        discharged_by_backend=by_backend,
        discharged_by_scope=by_scope,
        solver_seconds_total=solver_s,
        slow_obligations=slow,
        slowest_jobs=slowest_jobs,
        jobs=len(job_secs),
        bounded_stand_ins=[dict(name=r.name, bound=r.scope, detail=r.detail[:300]) for r in bounded],
        bounded_stand_ins_count=len(bounded),
        canaries_refuted=len(canaries),
        traces_validated_against_impl=sum(int(r.extra.get("conformance_points", 0)) for r in results),
        known_findings=sorted(set(known_lines)),
        samples=samples,
        obligation_list=ob_list,
        explanation=meta.get("explanation", ""),
        not_decided=meta.get("not_decided", []),
        evaluations=counted + len(bounded) + len(canaries),
        distinct_nontrivial=len({r.name for r in discharged}),
        rule="one evaluation = one named verification condition generated from /repo's current source; "
             "distinct = distinct obligation names that were discharged by a solver",
        exit_code=exit_code,
        solver_versions=dict(z3=z3.get_version_string(), cvc5_cli="1.0.3", z3_cli="4.8.12"),
    )
    ev = dict(property_id=prop, tier=tier, seed=int(seed), level=level, coverage=cov,
              assumptions=meta.get("assumptions", []), wall_s=round(wall, 2),
              violations=len(refuted) - len(known_lines))
    os.makedirs(os.path.join(OUT, "evidence"), exist_ok=True)
    with open(os.path.join(OUT, "evidence", f"{prop}.json"), "w") as f:
        json.dump(ev, f, indent=1, default=str)

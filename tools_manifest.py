#!/usr/bin/env python3
"""regenerate MANIFEST.json from the per-property CLAIM records in contracts/Cxx.py"""
import importlib
import json
import os
import sys

sys.path.insert(0, os.path.dirname(os.path.abspath(__file__)))
props = [json.loads(l) for l in open("properties.jsonl")]
checks, na, engines = [], [], {}
for p in props:
    pid = p["id"]
    claim = None
    if os.path.exists(f"contracts/{pid}.py"):
        src = open(f"contracts/{pid}.py").read()
        if "CLAIM" in src:
            ns = {}
            # CLAIM is a literal dict assigned at module level
            import ast
            tree = ast.parse(src)
            for node in tree.body:
                if isinstance(node, ast.Assign) and getattr(node.targets[0], "id", "") == "CLAIM":
                    claim = ast.literal_eval(node.value)
    if claim and claim.get("claimed", True):
        checks.append(dict(
            property_id=pid,
            quick_cmd=f"./vcheck {pid} --tier quick",
            thorough_cmd=f"./vcheck {pid} --tier thorough",
            evidence_file=f"evidence/{pid}.json",
            replay_cmd_template="./vcheck replay {path}",
            engine=claim["engine"],
            level_claimed=dict(category=claim["level"], text=claim["text"], design_ref=claim.get("design_ref", "DESIGN.md §7 " + pid)),
            level_note=claim["note"],
            technique=claim["technique"]))
        for e in claim["engine"].split("+"):
            engines.setdefault(e.strip(), []).append(pid)
    else:
        reason = (claim or {}).get("reason", "check not built yet (framework under construction)")
        na.append(dict(property_id=pid, reason=reason))
m = dict(
    version=1, setup_cmd="./setup.sh",
    hooks=dict(guard="QUARA_VERIF",
               enable="no source hooks are needed: the checks read /repo's working tree on every run and import the source unmodified "
                      "(./vcheck exports QUARA_VERIF=1; nothing in /repo reads it)",
               baseline_off_cmd="cd /repo && /venv/bin/python -m pytest -ra -q -p no:cacheprovider --timeout=900 --continue-on-collection-errors",
               source_commits=[], add_only=True),
    engines=[dict(name="E1-pyvc", path="qverif/pyvc", serves_properties=engines.get("E1-pyvc", []),
                  kind_free_text="contract-based deductive verification: VCs generated from the ast of the real functions "
                                 "(loop invariants, callee contracts), discharged by z3 / cvc5"),
             dict(name="E2-symtwin", path="qverif/symtwin", serves_properties=engines.get("E2-symtwin", []),
                  kind_free_text="contract-based deductive verification: the unmodified source is executed in a twin import over "
                                 "exact symbolic scalars; every contract clause on every path is a VC over the reals "
                                 "(normaliser + z3), for all inputs of one configuration"),
             dict(name="E0-enumeration", path="contracts/C17_enum.py", serves_properties=sorted(set([p for k, v in engines.items() if k.startswith("E0") for p in v]
                                                                                                    + ["C04", "C05", "C06", "C10", "C11", "C15", "C18"])),
                  kind_free_text="bounded stand-in: runtime contracts evaluated natively on the real code - complete enumeration of a finite "
                                 "domain (the catalogues, C17), seeded instance sweeps for what the proofs of C04, C05, C06, C10, C11 leave open "
                                 "(contracts/C04_native.py, C05_native.py, C06_native.py, C11_native.py, C18_native.py); reported as bounded-stand-ins, never counted as proved")],
    checks=checks, not_applicable=na,
    notes="Exit codes of every check: 0 held | 1 violation (VIOLATION line) | 2 undecided | 3 checker fault. See DESIGN.md.")
json.dump(m, open("MANIFEST.json", "w"), indent=1)
print(len(checks), "claimed;", len(na), "not claimed")

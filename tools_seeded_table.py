#!/usr/bin/env python3
"""regenerate the seeded-change table in DESIGN.md from seeded_results.json, seeded/history.json and the meta.json files"""
import json
import os
import re

V = os.path.dirname(os.path.abspath(__file__))
res = {r["tag"]: r for r in json.load(open(os.path.join(V, "seeded_results.json")))}
hist = json.load(open(os.path.join(V, "seeded", "history.json")))
rows = ["| change | breaks (short) | needs | first | now | obligations that fail now |", "|---|---|---|---|---|---|"]
n = caught = 0
for tag in sorted(os.listdir(os.path.join(V, "seeded"))):
    mp = os.path.join(V, "seeded", tag, "meta.json")
    if not os.path.exists(mp):
        continue
    m = json.load(open(mp))
    r = res.get(tag)
    n += 1
    if r is None:
        now, obs = "not evaluated", ""
    else:
        ex = r.get("check_exit")
        now = {1: "caught", 0: "MISSED", 2: "undecided", 3: "checker fault"}.get(ex, str(ex))
        caught += ex == 1
        obs = "; ".join(sorted({re.sub(r"\[.*", "", o.split("/", 1)[1]) for o in r.get("obligations", [])}))[:160]
        if r.get("demo_unchanged") != 0 or r.get("demo_changed") != 1:
            now += " (demo not confirmed)"
    short = lambda t, k: re.sub(r"\s+", " ", str(t)).replace("|", "/")[:k]
    rows.append(f"| {tag} | {short(m.get('what_breaks', ''), 150)} | {short(m.get('needs_to_manifest', ''), 110)} | {hist['first'].get(tag, 'caught' if (r and r.get('first_is_now')) else '?')} | {now} | {obs} |")
rows.append("")
rows.append(f"{caught} of {n} seeded changes are caught by the current checks (exit 1 with VIOLATION lines).")
s = open(os.path.join(V, "DESIGN.md")).read()
a, b = "<!-- SEEDED-TABLE-BEGIN -->", "<!-- SEEDED-TABLE-END -->"
s = s[:s.index(a) + len(a)] + "\n" + "\n".join(rows) + "\n" + s[s.index(b):]
open(os.path.join(V, "DESIGN.md"), "w").write(s)
print(f"{caught}/{n}")

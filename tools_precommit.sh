#!/bin/bash
# sanity before committing: every contract module imports, MANIFEST regenerates and validates, evidence files validate
cd "$(dirname "$0")"
.venv/bin/python - <<'PY' || exit 1
import importlib, json, glob, sys
sys.path.insert(0, '.')
for i in range(1, 21):
    m = importlib.import_module(f"contracts.C{i:02d}")
    assert m.jobs("quick", 0), f"C{i:02d}: no jobs"
    assert m.jobs("thorough", 0)
import jsonschema
jsonschema.validate(json.load(open('MANIFEST.json')), json.load(open('/root/.vp/MANIFEST.schema.json')))
sch = json.load(open('/root/.vp/EVIDENCE.schema.json'))
for f in glob.glob('evidence/*.json'):
    jsonschema.validate(json.load(open(f)), sch)
print("precommit ok")
PY
